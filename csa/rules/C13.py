"""
C13 - Copeland ranks by pairwise victories and reports consistent features.

O1  three-way counting table of `_fill_dicts_copeland`, abstractly evaluated for the 3 order types of
    (before, after) x 3 values of the (irrelevant) tie cost on a 2-element universe.
O2  coverage on a 4-element universe: every unordered pair contributes exactly once (counts per element sum to
    n-1, scores to n(n-1)/2), and only slots 0 / 1 of the pair's cell decide (tie cost varied, result unchanged).
O3  ordering / grouping / features of compute_consensus_rankings, abstractly evaluated for every weak ordering of
    three scores (13 order types) and a 4-score profile with two tie groups.
O4  the cost matrix is built from the caller's dataset and scheme; the Consensus carries them.
"""
from __future__ import annotations

import ast
from fractions import Fraction
from typing import Dict, List

from ..loader import AnalysisError, src, dotted
from ..report import Result
from ..engines.abseval import Evaluator, Sym, Lin, Unsupported
from .. import spec

MOD = "corankco.algorithms.copeland.copeland"


_RT = {}


def _eval_fill(proj, f, matrix, n):
    """The real pair counter (whatever helpers / numpy idioms it uses) evaluated on a concrete cost cube. Returns
    (scores, results) as python lists, or raises AnalysisError on a construct the evaluator does not model."""
    from ..engines.instances import Runtime
    from ..engines.stdlib import install
    from ..engines.npmodel import Cube
    from ..engines.abseval import Vec, Mat, AbsRaise, IndexOut
    if id(proj) not in _RT:
        _RT.clear()
        _RT[id(proj)] = install(Runtime(proj))
    rt = _RT[id(proj)]
    rt.max_steps = 3000000
    cube = Cube([[list(c) for c in row] for row in matrix])
    cube.as_matrix = True
    cls = proj.cls(MOD, "CopelandMethod")
    try:
        ret = rt.call_static(cls, "_fill_dicts_copeland", cube)
    except Unsupported as exc:
        raise AnalysisError(f"{f.qualname}: unsupported construct at line {getattr(exc.node, 'lineno', '?')}: {exc}")
    except (AbsRaise, IndexOut) as exc:
        return None, f"raises {exc}"
    if not (isinstance(ret, tuple) and len(ret) == 2):
        return None, f"returns {ret!r}, expected (scores, results)"
    sc, rs = ret
    sc = list(sc.vals) if isinstance(sc, Vec) else (list(sc) if isinstance(sc, list) else None)
    rs = [list(r) for r in rs.rows] if isinstance(rs, Mat) else ([list(r) for r in rs] if isinstance(rs, list) else None)
    if sc is None or rs is None:
        return None, f"returns {ret!r}, expected (scores array, results array)"
    return (sc, rs), ""


def _expected(matrix, n):
    exp_scores = [Fraction(0)] * n
    exp_results = [[0, 0, 0] for _ in range(n)]
    for i in range(n):
        for j in range(i + 1, n):
            b, a = matrix[i][j][0], matrix[i][j][1]
            if b < a:
                exp_scores[i] += 1; exp_results[i][0] += 1; exp_results[j][2] += 1
            elif a < b:
                exp_scores[j] += 1; exp_results[j][0] += 1; exp_results[i][2] += 1
            else:
                exp_scores[i] += Fraction(1, 2); exp_scores[j] += Fraction(1, 2)
                exp_results[i][1] += 1; exp_results[j][1] += 1
    return exp_scores, exp_results


def _same(got, exp_scores, exp_results):
    sc, rs = got
    return len(sc) == len(exp_scores) and all(Fraction(x) == y for x, y in zip(sc, exp_scores)) and \
        [[int(v) if float(v).is_integer() else v for v in r] for r in rs] == exp_results


def run(ctx) -> Result:
    res = Result("C13")
    proj = ctx.proj
    cls = proj.cls(MOD, "CopelandMethod")
    f = proj.method(cls, "_fill_dicts_copeland")
    comp = proj.method(cls, "compute_consensus_rankings")
    res.saw(f, comp)
    res.rule("O1", "victory / equality / defeat table of the pair counter over the order types of (before, after)", 3)
    res.rule("O2", "pair coverage and independence from the tie slot", 2)
    res.rule("O3", "descending order, grouping of equal scores, last group flushed, feature dictionaries (13 weak "
                   "orders of 3 scores + a 4-score profile)", 14)
    res.rule("O4", "cost matrix and Consensus use the caller's dataset and scheme", 2)

    # ------------------------------------------------------------------ O1
    # order types of (before, after) at ordinary, huge and tiny magnitudes: the comparison is exact, never "close enough"
    variants = {
        "lt": [(0, 1), (2, 5), (1e9, 1e9 + 1), (1e-9, 2e-9), (0.1 + 0.2, 0.30000000000000010)],
        "gt": [(1, 0), (5, 2), (1e9 + 1, 1e9), (2e-9, 1e-9), (0.30000000000000010, 0.1 + 0.2)],
        "eq": [(1, 1), (5, 5), (1e9, 1e9), (1e-9, 1e-9), (0.0, 0.0)],
    }
    for label in ("lt", "gt", "eq"):
        good = True
        detail = ""
        n_cases = 0
        for b2, a2 in variants[label]:
            if label != "eq" and not ((b2 < a2) if label == "lt" else (a2 < b2)):
                continue
            for tie in (0, 1, 5):
                m = [[[0, 0, 0], [b2, a2, tie]], [[a2, b2, tie], [0, 0, 0]]]
                got, err = _eval_fill(proj, f, m, 2)
                n_cases += 1
                es, er = _expected(m, 2)
                if got is None:
                    good, detail = False, err
                elif not _same(got, es, er) and good:
                    good = False
                    detail = f"before={b2!r} after={a2!r} tie={tie}: scores {got[0]} results {got[1]}; " \
                             f"expected {[str(s_) for s_ in es]} {er}"
        res.check(good, "O1", f"_fill_dicts_copeland:before-{label}-after", f.loc(),
                  ok_detail=f"{n_cases} cost cells (ordinary, 1e9-scale and 1e-9-scale costs) counted as {label}",
                  bad_detail=detail)
    # ------------------------------------------------------------------ O2
    def coverage(n, tag):
        vals = [(0, 1), (1, 0), (1, 1), (0, 1), (1, 1), (1, 0), (2, 1)]
        m = [[[0, 0, 0] for _ in range(n)] for _ in range(n)]   # the real matrix has a zero diagonal
        k = 0
        for i in range(n):
            for j in range(i + 1, n):
                b, a = vals[(k * 5 + i) % len(vals)]
                k += 1
                m[i][j] = [b, a, 7]
                m[j][i] = [a, b, 7]
        got, err = _eval_fill(proj, f, m, n)
        es, er = _expected(m, n)
        ok = got is not None and _same(got, es, er)
        first = ""
        if got is not None and not ok:
            idx = next((i for i in range(n) if i >= len(got[0]) or Fraction(got[0][i]) != es[i] or
                        [int(v) for v in got[1][i]] != er[i]), 0)
            first = (f"element {idx}: score {got[0][idx] if idx < len(got[0]) else '?'} counts "
                     f"{got[1][idx] if idx < len(got[1]) else '?'}, expected {es[idx]} {er[idx]}")
        res.check(ok, "O2", f"_fill_dicts_copeland:coverage-n{n}", f.loc(),
                  ok_detail=f"each of the {n * (n - 1) // 2} unordered pairs counted once ({tag})",
                  bad_detail=err or first)
        if got is not None:
            sums_ok = all(sum(r) == n - 1 for r in got[1]) and sum(Fraction(x) for x in got[0]) == Fraction(n * (n - 1), 2)
            res.check(sums_ok, "O2", f"_fill_dicts_copeland:sums-n{n}", f.loc(),
                      ok_detail="counts sum to n-1 per element and scores to n(n-1)/2",
                      bad_detail=f"counts per element {[sum(r) for r in got[1]][:8]}..., scores sum {sum(Fraction(x) for x in got[0])}")
    coverage(4, "4 elements")
    coverage(7, "7 elements")
    coverage(130, "130 elements: beyond any small block / chunk size")
    res.explored_threshold = 129

    # ------------------------------------------------------------------ O3
    profiles = [list(p) for p in spec.WEAK_ORDERS_3] + [[2.0, 0.5, 2.0, 0.5]]
    for prof in profiles:
        _check_ordering(res, proj, comp, prof)

    # ------------------------------------------------------------------ O4 (evaluation on real instances)
    _check_o4(res, proj, cls, comp, f)
    res.not_decided.append("nothing numeric: the counting rule compares float costs exactly as the property states")
    if not res.violations:      # the end-to-end pass adds nothing to an established violation (and may not terminate on it)
        from . import e2e
        e2e.check(res, ctx.proj, "C13", ctx.thorough)
    return res


def _check_o4(res: Result, proj, cls, comp, fill):
    """The real entry point on a real dataset / scheme with the cost-matrix builder and the pair counter intercepted:
    the matrix is built from the caller's positions (or bucket ids) and scheme with unit weights, the counter receives
    that very matrix, the Consensus carries the caller's dataset and scheme."""
    from .datamodel import World
    from ..engines.abseval import Mat, Vec
    from ..engines.npmodel import Cube
    w = World(proj)
    ds = w.dataset([[{"a"}, {"b", "c"}], [{"c"}, {"a"}], [{"b"}, {"a"}]])
    SS = proj.cls("corankco.scoringscheme", "ScoringScheme")
    sch = w.rt.new(SS, [[[0., 1., 1., 0., 1., 1.], [1., 1., 0., 1., 1., 0.]]], {})
    alg = w.rt.new(cls, [], {})
    pba = proj.cls("corankco.algorithms.pairwisebasedalgorithm", "PairwiseBasedAlgorithm")
    seen = {"pcm": [], "fill": []}
    marker = Cube([[[0.0, 0.0, 0.0] for _ in range(3)] for _ in range(3)])
    marker.as_matrix = True

    def pcm(args, kw):
        seen["pcm"].append((list(args), dict(kw)))
        return marker

    def fill_(args, kw):
        seen["fill"].append(list(args))
        return (Vec([2.0, 1.0, 0.0]), Mat([[2, 0, 0], [1, 0, 1], [0, 0, 2]]))
    w.rt.overrides[proj.method(pba, "pairwise_cost_matrix").qualname] = pcm
    w.rt.overrides[fill.qualname] = fill_
    st, c = w.safe("compute_consensus_rankings", w.rt.call_method, alg, "compute_consensus_rankings", ds, sch, True)
    w.rt.overrides.clear()
    good = st == "ok" and len(seen["pcm"]) == 1
    detail = f"outcome {st}; {len(seen['pcm'])} cost-matrix call(s)"
    if good:
        args, kw = seen["pcm"][0]
        pos = w.call(ds, "get_positions")
        bid = w.call(ds, "get_bucket_ids")
        wts = kw.get("weights", args[2] if len(args) > 2 else None)
        unit = wts is None or (isinstance(wts, Vec) and all(x == 1 for x in wts.vals))
        good = len(args) >= 2 and (args[0] == pos or args[0] == bid) and args[1] is sch and unit
        detail = f"cost matrix built from {args[:1]!r} / scheme is the caller's: {len(args) > 1 and args[1] is sch} / weights {wts!r}"
    res.check(good, "O4", "compute_consensus_rankings:cost-matrix-args", comp.loc(),
              ok_detail="pairwise_cost_matrix(dataset positions, scoring_scheme), unit weights", bad_detail=detail)
    good = st == "ok" and len(seen["fill"]) == 1 and len(seen["fill"][0]) >= 1 and seen["fill"][0][-1] is marker
    res.check(good, "O4", "compute_consensus_rankings:counter-input", comp.loc(),
              ok_detail="the pair counter receives the cost matrix just built",
              bad_detail="the pair counter does not receive the cost matrix built from the caller's dataset")


def _check_ordering(res: Result, proj, comp, prof: List[float]):
    n = len(prof)
    elems = [f"e{i}" for i in range(n)]
    results_np = [[i, 10 + i, 20 + i] for i in range(n)]
    ds, sch = comp.param_names[1], comp.param_names[2]
    captured = {}

    def argsort(ev, call):
        arr = ev.ev(call.args[0])
        if not isinstance(arr, list):
            raise Unsupported("argsort of abstract", call)
        return sorted(range(len(arr)), key=lambda i: arr[i])

    def fill(ev, call):
        return (list(prof), [list(r) for r in results_np])

    def consensus(ev, call):
        captured["args"] = [ev.ev(a) for a in call.args]
        captured["kw"] = {k.arg: ev.ev(k.value) for k in call.keywords}
        return "CONSENSUS"

    def ranking(ev, call):
        return ("Ranking", ev.ev(call.args[0]))

    env = {ds: Sym("DATASET"), sch: Sym("SCHEME"), "self": Sym("SELF"),
           ds + ".mapping_id_elem": {i: elems[i] for i in range(n)}}
    funcs = {"argsort": argsort, "._fill_dicts_copeland": fill, "Consensus": consensus, "Ranking": ranking,
             ".pairwise_cost_matrix": lambda ev, call: Sym("COSTS"),
             ".get_positions": lambda ev, call: Sym("POS"),
             ".get_full_name": lambda ev, call: "NAME"}
    evl = Evaluator(env, funcs)
    evl.attr_fallback = lambda d: d if d.startswith("ConsensusFeature.") else None
    key = f"compute_consensus_rankings:scores={prof}"
    try:
        ret = evl.run(comp.body_without_docstring())
    except Unsupported as exc:
        raise AnalysisError(f"{comp.qualname}: unsupported construct at line {getattr(exc.node, 'lineno', '?')}: {exc}")
    if ret != "CONSENSUS" or "args" not in captured:
        res.bad("O3", key, comp.loc(), f"does not return a Consensus (returned {ret!r})")
        return
    kw = dict(captured["kw"])
    args = captured["args"]
    names = ["consensus_rankings", "dataset", "scoring_scheme", "att"]
    for i, a in enumerate(args):
        kw[names[i]] = a
    # expected ranking: groups by decreasing score
    exp = []
    for sc_ in sorted(set(prof), reverse=True):
        exp.append({elems[i] for i in range(n) if prof[i] == sc_})
    cr = kw.get("consensus_rankings")
    ok_rank = isinstance(cr, list) and len(cr) == 1 and cr[0] == ("Ranking", exp)
    att = kw.get("att") or {}
    exp_scores = {elems[i]: prof[i] for i in range(n)}
    exp_vict = {elems[i]: results_np[i] for i in range(n)}
    ok_feat = att.get("ConsensusFeature.COPELAND_SCORES") == exp_scores and \
        att.get("ConsensusFeature.COPELAND_VICTORIES") == exp_vict
    ok_ctx = kw.get("dataset") == Sym("DATASET") and kw.get("scoring_scheme") == Sym("SCHEME")
    detail = ""
    if not ok_rank:
        detail = f"ranking {cr!r}, expected one ranking {exp!r}"
    elif not ok_feat:
        detail = f"feature dictionaries {att!r} differ from the counters"
    elif not ok_ctx:
        detail = f"Consensus built with dataset={kw.get('dataset')!r} scheme={kw.get('scoring_scheme')!r}"
    res.check(ok_rank and ok_feat and ok_ctx, "O3", key, comp.loc(),
              ok_detail=f"ranking {exp!r}; features keyed by the same id map", bad_detail=detail)

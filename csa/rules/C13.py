"""
C13 - Copeland ranks by pairwise victories and reports consistent features.

O1  three-way counting table of `_fill_dicts_copeland`, abstractly evaluated for the 3 order types of
    (before, after) x 3 values of the (irrelevant) tie cost on a 2-element universe.
O2  coverage on a 4-element universe: every unordered pair contributes exactly once (counts per element sum to
    n-1, scores to n(n-1)/2), and only slots 0 / 1 of the pair's cell decide (tie cost varied, result unchanged).
O3  ordering / grouping / features of compute_consensus_rankings, abstractly evaluated for every weak ordering of
    three scores (13 order types) and a 4-score profile with two tie groups.
O4  the cost matrix is built from the caller's dataset and scheme; the Consensus carries them.
"""
from __future__ import annotations

import ast
from fractions import Fraction
from typing import Dict, List

from ..loader import AnalysisError, src, dotted
from ..report import Result
from ..engines.abseval import Evaluator, Sym, Lin, Unsupported
from .. import spec

MOD = "corankco.algorithms.copeland.copeland"


_RT = {}


def _eval_fill(proj, f, matrix, n, want_consensus=False):
    """The real Copeland entry point on a real Dataset of n singleton elements (ids = names) with the cost-matrix builder
    replaced by the given cube: the per-element scores and [victories, equalities, defeats] are read from the features
    of the returned Consensus - whatever private routine computes them, however it is written.
    Returns ((scores, results), "") or (None, reason)."""
    from .datamodel import World
    from ..engines.npmodel import Cube
    from ..engines.abseval import Vec, Mat, AbsRaise, IndexOut
    key = id(proj)
    if key not in _RT:
        _RT.clear()
        w = World(proj)
        w.rt.max_steps = 6000000
        w.rt.funcs["print"] = lambda ev, call: None
        SS = proj.cls("corankco.scoringscheme", "ScoringScheme")
        _RT[key] = (w, w.rt.new(SS, [[[0., 1., 1., 0., 1., 1.], [1., 1., 0., 1., 1., 0.]]], {}), {})
    w, sch, datasets = _RT[key]
    if n not in datasets:
        datasets[n] = w.dataset([[{i} for i in range(n)]])
    ds = datasets[n]
    cube = Cube([[list(c) for c in row] for row in matrix])
    cube.as_matrix = True
    cls = proj.cls(MOD, "CopelandMethod")
    pba = proj.cls("corankco.algorithms.pairwisebasedalgorithm", "PairwiseBasedAlgorithm")
    q = proj.method(pba, "pairwise_cost_matrix").qualname
    w.rt.overrides[q] = lambda args, kw: cube
    try:
        alg = w.rt.new(cls, [], {})
        c = w.rt.call_method(alg, "compute_consensus_rankings", ds, sch, True)
    except Unsupported as exc:
        raise AnalysisError(f"CopelandMethod: unsupported construct at line {getattr(exc.node, 'lineno', '?')}: {exc}")
    except (AbsRaise, IndexOut) as exc:
        return None, f"raises {exc}"
    finally:
        w.rt.overrides.pop(q, None)
    sc_map = vi_map = None
    for k, v in (c.attrs.get("_att") or {}).items():
        if getattr(k, "member", "") == "COPELAND_SCORES":
            sc_map = v
        if getattr(k, "member", "") == "COPELAND_VICTORIES":
            vi_map = v
    if not isinstance(sc_map, dict) or not isinstance(vi_map, dict):
        return None, "the consensus carries no Copeland scores / victories"
    try:
        sc = [sc_map[e] for e in sorted(sc_map, key=lambda e: e.attrs["_value"])]
        rs = [list(vi_map[e].vals) if isinstance(vi_map[e], Vec) else list(vi_map[e])
              for e in sorted(vi_map, key=lambda e: e.attrs["_value"])]
    except Exception as exc:    # noqa
        return None, f"features not indexed by the elements: {exc!r}"
    if len(sc) != n or len(rs) != n:
        return None, f"{len(sc)} scores / {len(rs)} count triples for {n} elements"
    if want_consensus:
        return ((sc, rs), c, ds, sch), ""
    return (sc, rs), ""


def _expected(matrix, n):
    exp_scores = [Fraction(0)] * n
    exp_results = [[0, 0, 0] for _ in range(n)]
    for i in range(n):
        for j in range(i + 1, n):
            b, a = matrix[i][j][0], matrix[i][j][1]
            if b < a:
                exp_scores[i] += 1; exp_results[i][0] += 1; exp_results[j][2] += 1
            elif a < b:
                exp_scores[j] += 1; exp_results[j][0] += 1; exp_results[i][2] += 1
            else:
                exp_scores[i] += Fraction(1, 2); exp_scores[j] += Fraction(1, 2)
                exp_results[i][1] += 1; exp_results[j][1] += 1
    return exp_scores, exp_results


def _same(got, exp_scores, exp_results):
    sc, rs = got
    return len(sc) == len(exp_scores) and all(Fraction(x) == y for x, y in zip(sc, exp_scores)) and \
        [[int(v) if float(v).is_integer() else v for v in r] for r in rs] == exp_results


def run(ctx) -> Result:
    res = Result("C13")
    proj = ctx.proj
    cls = proj.cls(MOD, "CopelandMethod")
    comp = proj.method(cls, "compute_consensus_rankings")
    f = proj.lookup_method(cls, "_fill_dicts_copeland") or comp      # today's private counter (location of reports only)
    res.saw(f, comp)
    res.rule("O1", "victory / equality / defeat table of the pair counter over the order types of (before, after)", 3)
    res.rule("O2", "pair coverage and independence from the tie slot", 2)
    res.rule("O3", "descending order, grouping of equal scores, last group flushed, feature dictionaries (13 weak "
                   "orders of 3 scores + a 4-score profile)", 14)
    res.rule("O4", "cost matrix and Consensus use the caller's dataset and scheme", 2)

    # ------------------------------------------------------------------ O1
    # order types of (before, after) at ordinary, huge and tiny magnitudes: the comparison is exact, never "close enough"
    variants = {
        "lt": [(0, 1), (2, 5), (1e9, 1e9 + 1), (1e-9, 2e-9), (0.1 + 0.2, 0.30000000000000010)],
        "gt": [(1, 0), (5, 2), (1e9 + 1, 1e9), (2e-9, 1e-9), (0.30000000000000010, 0.1 + 0.2)],
        "eq": [(1, 1), (5, 5), (1e9, 1e9), (1e-9, 1e-9), (0.0, 0.0)],
    }
    for label in ("lt", "gt", "eq"):
        good = True
        detail = ""
        n_cases = 0
        for b2, a2 in variants[label]:
            if label != "eq" and not ((b2 < a2) if label == "lt" else (a2 < b2)):
                continue
            for tie in (0, 1, 5):
                m = [[[0, 0, 0], [b2, a2, tie]], [[a2, b2, tie], [0, 0, 0]]]
                got, err = _eval_fill(proj, f, m, 2)
                n_cases += 1
                es, er = _expected(m, 2)
                if got is None:
                    good, detail = False, err
                elif not _same(got, es, er) and good:
                    good = False
                    detail = f"before={b2!r} after={a2!r} tie={tie}: scores {got[0]} results {got[1]}; " \
                             f"expected {[str(s_) for s_ in es]} {er}"
        res.check(good, "O1", f"_fill_dicts_copeland:before-{label}-after", f.loc(),
                  ok_detail=f"{n_cases} cost cells (ordinary, 1e9-scale and 1e-9-scale costs) counted as {label}",
                  bad_detail=detail)
    # ------------------------------------------------------------------ O2
    def coverage(n, tag):
        vals = [(0, 1), (1, 0), (1, 1), (0, 1), (1, 1), (1, 0), (2, 1)]
        m = [[[0, 0, 0] for _ in range(n)] for _ in range(n)]   # the real matrix has a zero diagonal
        k = 0
        for i in range(n):
            for j in range(i + 1, n):
                b, a = vals[(k * 5 + i) % len(vals)]
                k += 1
                m[i][j] = [b, a, 7]
                m[j][i] = [a, b, 7]
        got, err = _eval_fill(proj, f, m, n)
        es, er = _expected(m, n)
        ok = got is not None and _same(got, es, er)
        first = ""
        if got is not None and not ok:
            idx = next((i for i in range(n) if i >= len(got[0]) or Fraction(got[0][i]) != es[i] or
                        [int(v) for v in got[1][i]] != er[i]), 0)
            first = (f"element {idx}: score {got[0][idx] if idx < len(got[0]) else '?'} counts "
                     f"{got[1][idx] if idx < len(got[1]) else '?'}, expected {es[idx]} {er[idx]}")
        res.check(ok, "O2", f"_fill_dicts_copeland:coverage-n{n}", f.loc(),
                  ok_detail=f"each of the {n * (n - 1) // 2} unordered pairs counted once ({tag})",
                  bad_detail=err or first)
        if got is not None:
            sums_ok = all(sum(r) == n - 1 for r in got[1]) and sum(Fraction(x) for x in got[0]) == Fraction(n * (n - 1), 2)
            res.check(sums_ok, "O2", f"_fill_dicts_copeland:sums-n{n}", f.loc(),
                      ok_detail="counts sum to n-1 per element and scores to n(n-1)/2",
                      bad_detail=f"counts per element {[sum(r) for r in got[1]][:8]}..., scores sum {sum(Fraction(x) for x in got[0])}")
    coverage(4, "4 elements")
    coverage(7, "7 elements")
    coverage(130, "130 elements: beyond any small block / chunk size")
    res.explored_threshold = 129

    # ------------------------------------------------------------------ O3
    profiles = [list(p) for p in spec.WEAK_ORDERS_3] + [[2.0, 0.5, 2.0, 0.5]]
    for prof in profiles:
        _check_ordering(res, proj, comp, prof)

    # ------------------------------------------------------------------ O4 (evaluation on real instances)
    _check_o4(res, proj, cls, comp, f)
    res.not_decided.append("nothing numeric: the counting rule compares float costs exactly as the property states")
    if not res.violations:      # the end-to-end pass adds nothing to an established violation (and may not terminate on it)
        from . import e2e
        e2e.check(res, ctx.proj, "C13", ctx.thorough)
    return res


def _check_o4(res: Result, proj, cls, comp, fill):
    """The real entry point on a real dataset / scheme with the cost-matrix builder and the pair counter intercepted:
    the matrix is built from the caller's positions (or bucket ids) and scheme with unit weights, the counter receives
    that very matrix, the Consensus carries the caller's dataset and scheme."""
    from .datamodel import World
    from ..engines.abseval import Mat, Vec
    from ..engines.npmodel import Cube
    w = World(proj)
    ds = w.dataset([[{"a"}, {"b", "c"}], [{"c"}, {"a"}], [{"b"}, {"a"}]])
    SS = proj.cls("corankco.scoringscheme", "ScoringScheme")
    sch = w.rt.new(SS, [[[0., 1., 1., 0., 1., 1.], [1., 1., 0., 1., 1., 0.]]], {})
    alg = w.rt.new(cls, [], {})
    pba = proj.cls("corankco.algorithms.pairwisebasedalgorithm", "PairwiseBasedAlgorithm")
    seen = {"pcm": [], "fill": []}
    marker = Cube([[[0.0, 0.0, 0.0] for _ in range(3)] for _ in range(3)])
    marker.as_matrix = True

    def pcm(args, kw):
        seen["pcm"].append((list(args), dict(kw)))
        return marker

    def fill_(args, kw):
        seen["fill"].append(list(args))
        return (Vec([2.0, 1.0, 0.0]), Mat([[2, 0, 0], [1, 0, 1], [0, 0, 2]]))
    w.rt.overrides[proj.method(pba, "pairwise_cost_matrix").qualname] = pcm
    has_counter = fill is not comp
    if has_counter:
        w.rt.overrides[fill.qualname] = fill_
    st, c = w.safe("compute_consensus_rankings", w.rt.call_method, alg, "compute_consensus_rankings", ds, sch, True)
    w.rt.overrides.clear()
    good = st == "ok" and len(seen["pcm"]) == 1
    detail = f"outcome {st}; {len(seen['pcm'])} cost-matrix call(s)"
    if good:
        args, kw = seen["pcm"][0]
        pos = w.call(ds, "get_positions")
        bid = w.call(ds, "get_bucket_ids")
        wts = kw.get("weights", args[2] if len(args) > 2 else None)
        unit = wts is None or (isinstance(wts, Vec) and all(x == 1 for x in wts.vals))
        good = len(args) >= 2 and (args[0] == pos or args[0] == bid) and args[1] is sch and unit
        detail = f"cost matrix built from {args[:1]!r} / scheme is the caller's: {len(args) > 1 and args[1] is sch} / weights {wts!r}"
    res.check(good, "O4", "compute_consensus_rankings:cost-matrix-args", comp.loc(),
              ok_detail="pairwise_cost_matrix(dataset positions, scoring_scheme), unit weights", bad_detail=detail)
    good = (st == "ok" and len(seen["fill"]) == 1 and len(seen["fill"][0]) >= 1 and seen["fill"][0][-1] is marker) \
        if has_counter else st == "ok"
    res.check(good, "O4", "compute_consensus_rankings:counter-input", comp.loc(),
              ok_detail="the pair counter receives the cost matrix just built",
              bad_detail="the pair counter does not receive the cost matrix built from the caller's dataset")


def _cube_for_scores(prof: List[float]):
    """A cost cube over len(prof) elements whose pairwise outcomes order the elements like `prof` (weakly): x beats y iff
    prof[x] > prof[y], they draw iff equal. The resulting Copeland scores are ordered like prof."""
    n = len(prof)
    m = [[[0.0, 0.0, 0.0] for _ in range(n)] for _ in range(n)]
    for i in range(n):
        for j in range(n):
            if i != j:
                b, a = (0.0, 1.0) if prof[i] > prof[j] else ((1.0, 0.0) if prof[i] < prof[j] else (1.0, 1.0))
                m[i][j] = [b, a, 9.0]
    return m


def _check_ordering(res: Result, proj, comp, prof: List[float]):
    """The real entry point with the cost table scripted so that the elements' Copeland scores are ordered like `prof`:
    the consensus groups the elements by decreasing score (equal scores together, last group included) and the features
    give every element its own score and counts; the Consensus carries the caller's dataset and scheme."""
    n = len(prof)
    m = _cube_for_scores(prof)
    key = f"compute_consensus_rankings:scores={prof}"
    got, err = _eval_fill(proj, comp, m, n, want_consensus=True)
    if got is None:
        res.bad("O3", key, comp.loc(), err)
        return
    (sc, rs), cons, ds, sch = got
    es, er = _expected(m, n)
    exp = []
    for v in sorted(set(es), reverse=True):
        exp.append({i for i in range(n) if es[i] == v})
    rks = cons.attrs.get("_consensus_rankings")
    cr = [[{e.attrs["_value"] for e in b} for b in r.attrs["_buckets"]] for r in rks] if isinstance(rks, list) else None
    ok_rank = cr == [exp]
    ok_feat = _same((sc, rs), es, er)
    ok_ctx = cons.attrs.get("_dataset") is ds and cons.attrs.get("_scoring_scheme") is sch
    detail = ""
    if not ok_rank:
        detail = f"elements with scores {[str(x) for x in es]}: ranking {cr!r}, expected one ranking {exp!r}"
    elif not ok_feat:
        detail = f"feature dictionaries give scores {sc} / counts {rs}, the pairwise outcomes give {[str(x) for x in es]} / {er}"
    elif not ok_ctx:
        detail = "the Consensus does not carry the caller's dataset / scoring scheme"
    res.check(ok_rank and ok_feat and ok_ctx, "O3", key, comp.loc(),
              ok_detail=f"ranking {exp!r}; features keyed by the elements", bad_detail=detail)

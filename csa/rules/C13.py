"""
C13 - Copeland ranks by pairwise victories and reports consistent features.

O1  three-way counting table of `_fill_dicts_copeland`, abstractly evaluated for the 3 order types of
    (before, after) x 3 values of the (irrelevant) tie cost on a 2-element universe.
O2  coverage on a 4-element universe: every unordered pair contributes exactly once (counts per element sum to
    n-1, scores to n(n-1)/2), and only slots 0 / 1 of the pair's cell decide (tie cost varied, result unchanged).
O3  ordering / grouping / features of compute_consensus_rankings, abstractly evaluated for every weak ordering of
    three scores (13 order types) and a 4-score profile with two tie groups.
O4  the cost matrix is built from the caller's dataset and scheme; the Consensus carries them.
"""
from __future__ import annotations

import ast
from fractions import Fraction
from typing import Dict, List

from ..loader import AnalysisError, src, dotted
from ..report import Result
from ..engines.abseval import Evaluator, Sym, Lin, Unsupported
from .. import spec

MOD = "corankco.algorithms.copeland.copeland"


def _eval_fill(f, matrix, n):
    p = f.param_names[0]
    env = {p: matrix, p + ".shape": (n, n, 3)}
    evl = Evaluator(env)
    evl.opaque_ok = True
    try:
        ret = evl.run(f.body_without_docstring())
    except Unsupported as exc:
        raise AnalysisError(f"{f.qualname}: unsupported construct at line {getattr(exc.node, 'lineno', '?')}: {exc}")
    return ret, evl


def _tally(evl, n):
    scores = [Fraction(0)] * n
    results = [[0, 0, 0] for _ in range(n)]
    other = []
    roles = {}
    for name, rhs in evl.opaque.items():
        roles[name] = rhs
    for e in evl.effects:
        if e.op != "+=":
            other.append(e)
            continue
        v = e.value
        if isinstance(v, float):
            v = Fraction(v)
        if len(e.target) == 2 and isinstance(e.target[1], int):
            scores_name = e.target[0]
            roles.setdefault("__scores__", scores_name)
            if roles["__scores__"] != scores_name:
                other.append(e)
                continue
            scores[e.target[1]] += Fraction(v)
        elif len(e.target) == 3:
            results[e.target[1]][e.target[2]] += v
            roles.setdefault("__results__", e.target[0])
        else:
            other.append(e)
    return scores, results, other, roles


def run(ctx) -> Result:
    res = Result("C13")
    proj = ctx.proj
    cls = proj.cls(MOD, "CopelandMethod")
    f = proj.method(cls, "_fill_dicts_copeland")
    comp = proj.method(cls, "compute_consensus_rankings")
    res.saw(f, comp)
    res.rule("O1", "victory / equality / defeat table of the pair counter over the order types of (before, after)", 3)
    res.rule("O2", "pair coverage and independence from the tie slot", 2)
    res.rule("O3", "descending order, grouping of equal scores, last group flushed, feature dictionaries (13 weak "
                   "orders of 3 scores + a 4-score profile)", 14)
    res.rule("O4", "cost matrix and Consensus use the caller's dataset and scheme", 2)

    # ------------------------------------------------------------------ O1
    want = {
        "lt": ([1, 0], [[1, 0, 0], [0, 0, 1]]),
        "gt": ([0, 1], [[0, 0, 1], [1, 0, 0]]),
        "eq": ([Fraction(1, 2), Fraction(1, 2)], [[0, 1, 0], [0, 1, 0]]),
    }
    for label, (b, a) in (("lt", (0, 1)), ("gt", (1, 0)), ("eq", (1, 1))):
        good = True
        detail = ""
        for b2, a2 in ((b, a), (b * 3 + 2, a * 3 + 2)):
            for tie in (0, 1, 5):
                m = [[[0, 0, 0], [b2, a2, tie]], [[a2, b2, tie], [0, 0, 0]]]
                ret, evl = _eval_fill(f, m, 2)
                scores, results, other, roles = _tally(evl, 2)
                if other:
                    good, detail = False, f"unexpected effect {other[0]!r}"
                if (scores, results) != (list(map(Fraction, want[label][0])), want[label][1]):
                    good = False
                    detail = f"before={b2} after={a2} tie={tie}: scores {[str(s) for s in scores]} results {results}; " \
                             f"expected {[str(s) for s in want[label][0]]} {want[label][1]}"
                if not (isinstance(ret, tuple) and len(ret) == 2 and isinstance(ret[0], Sym) and isinstance(ret[1], Sym)
                        and ret[0].name == roles.get("__scores__") and ret[1].name == roles.get("__results__")):
                    good, detail = False, f"returns {ret!r}, expected (scores, results)"
        res.check(good, "O1", f"_fill_dicts_copeland:before-{label}-after", f.loc(),
                  ok_detail=f"scores {[str(s) for s in want[label][0]]}, [victories, equalities, defeats] {want[label][1]}",
                  bad_detail=detail)
    # ------------------------------------------------------------------ O2
    n = 4
    profile = {}
    vals = [(0, 1), (1, 0), (1, 1), (0, 1), (1, 1), (1, 0)]
    k = 0
    m = [[[0, 0, 0] for _ in range(n)] for _ in range(n)]   # the real matrix has a zero diagonal
    for i in range(n):
        for j in range(i + 1, n):
            b, a = vals[k]
            k += 1
            m[i][j] = [b, a, 7]
            m[j][i] = [a, b, 7]
            profile[(i, j)] = (b, a)
    ret, evl = _eval_fill(f, m, n)
    scores, results, other, roles = _tally(evl, n)
    exp_scores = [Fraction(0)] * n
    exp_results = [[0, 0, 0] for _ in range(n)]
    for (i, j), (b, a) in profile.items():
        if b < a:
            exp_scores[i] += 1; exp_results[i][0] += 1; exp_results[j][2] += 1
        elif a < b:
            exp_scores[j] += 1; exp_results[j][0] += 1; exp_results[i][2] += 1
        else:
            exp_scores[i] += Fraction(1, 2); exp_scores[j] += Fraction(1, 2)
            exp_results[i][1] += 1; exp_results[j][1] += 1
    res.check(not other and scores == exp_scores and results == exp_results, "O2", "_fill_dicts_copeland:coverage-n4",
              f.loc(), ok_detail=f"each of the 6 unordered pairs counted once: scores {[str(s) for s in scores]} "
                                 f"(sum {sum(scores)}), counts per element sum to {n - 1}",
              bad_detail=f"scores {[str(s) for s in scores]} results {results}, expected "
                         f"{[str(s) for s in exp_scores]} {exp_results}")
    sums_ok = all(sum(r) == n - 1 for r in results) and sum(scores) == Fraction(n * (n - 1), 2)
    res.check(sums_ok, "O2", "_fill_dicts_copeland:sums", f.loc(),
              ok_detail="counts sum to n-1 per element and scores to n(n-1)/2",
              bad_detail=f"counts per element {[sum(r) for r in results]}, scores sum {sum(scores)}")

    # ------------------------------------------------------------------ O3
    profiles = [list(p) for p in spec.WEAK_ORDERS_3] + [[2.0, 0.5, 2.0, 0.5]]
    for prof in profiles:
        _check_ordering(res, proj, comp, prof)

    # ------------------------------------------------------------------ O4
    ds, sch = comp.param_names[1], comp.param_names[2]
    calls = [n_ for n_ in ast.walk(comp.node) if isinstance(n_, ast.Call)]
    pcm = [c for c in calls if isinstance(c.func, ast.Attribute) and c.func.attr == "pairwise_cost_matrix"]
    good = len(pcm) == 1 and len(pcm[0].args) >= 2 and src(pcm[0].args[0]) in (f"{ds}.get_positions()", f"{ds}.get_bucket_ids()") \
        and src(pcm[0].args[1]) == sch and len(pcm[0].args) == 2 and not pcm[0].keywords
    res.check(good, "O4", "compute_consensus_rankings:cost-matrix-args", comp.loc(pcm[0]) if pcm else comp.loc(),
              ok_detail="pairwise_cost_matrix(dataset positions, scoring_scheme), unit weights",
              bad_detail=f"cost matrix built from {[src(a) for a in pcm[0].args] if pcm else 'nothing'}")
    fill = [c for c in calls if isinstance(c.func, ast.Attribute) and c.func.attr == "_fill_dicts_copeland"]
    good = len(fill) == 1 and len(fill[0].args) == 1
    if good:
        a = fill[0].args[0]
        # the argument is the variable assigned from the pairwise_cost_matrix call
        good = isinstance(a, ast.Name) and any(
            isinstance(s, (ast.Assign, ast.AnnAssign)) and getattr(s, "value", None) is pcm[0]
            and src(getattr(s, "target", None) or s.targets[0]) == a.id for s in ast.walk(comp.node)) if pcm else False
    res.check(good, "O4", "compute_consensus_rankings:counter-input", comp.loc(),
              ok_detail="the pair counter receives the cost matrix just built",
              bad_detail="the pair counter does not receive the cost matrix built from the caller's dataset")
    res.not_decided.append("nothing numeric: the counting rule compares float costs exactly as the property states")
    if not res.violations:      # the end-to-end pass adds nothing to an established violation (and may not terminate on it)
        from . import e2e
        e2e.check(res, ctx.proj, "C13", ctx.thorough)
    return res


def _check_ordering(res: Result, proj, comp, prof: List[float]):
    n = len(prof)
    elems = [f"e{i}" for i in range(n)]
    results_np = [[i, 10 + i, 20 + i] for i in range(n)]
    ds, sch = comp.param_names[1], comp.param_names[2]
    captured = {}

    def argsort(ev, call):
        arr = ev.ev(call.args[0])
        if not isinstance(arr, list):
            raise Unsupported("argsort of abstract", call)
        return sorted(range(len(arr)), key=lambda i: arr[i])

    def fill(ev, call):
        return (list(prof), [list(r) for r in results_np])

    def consensus(ev, call):
        captured["args"] = [ev.ev(a) for a in call.args]
        captured["kw"] = {k.arg: ev.ev(k.value) for k in call.keywords}
        return "CONSENSUS"

    def ranking(ev, call):
        return ("Ranking", ev.ev(call.args[0]))

    env = {ds: Sym("DATASET"), sch: Sym("SCHEME"), "self": Sym("SELF"),
           ds + ".mapping_id_elem": {i: elems[i] for i in range(n)}}
    funcs = {"argsort": argsort, "._fill_dicts_copeland": fill, "Consensus": consensus, "Ranking": ranking,
             ".pairwise_cost_matrix": lambda ev, call: Sym("COSTS"),
             ".get_positions": lambda ev, call: Sym("POS"),
             ".get_full_name": lambda ev, call: "NAME"}
    evl = Evaluator(env, funcs)
    evl.attr_fallback = lambda d: d if d.startswith("ConsensusFeature.") else None
    key = f"compute_consensus_rankings:scores={prof}"
    try:
        ret = evl.run(comp.body_without_docstring())
    except Unsupported as exc:
        raise AnalysisError(f"{comp.qualname}: unsupported construct at line {getattr(exc.node, 'lineno', '?')}: {exc}")
    if ret != "CONSENSUS" or "args" not in captured:
        res.bad("O3", key, comp.loc(), f"does not return a Consensus (returned {ret!r})")
        return
    kw = dict(captured["kw"])
    args = captured["args"]
    names = ["consensus_rankings", "dataset", "scoring_scheme", "att"]
    for i, a in enumerate(args):
        kw[names[i]] = a
    # expected ranking: groups by decreasing score
    exp = []
    for sc_ in sorted(set(prof), reverse=True):
        exp.append({elems[i] for i in range(n) if prof[i] == sc_})
    cr = kw.get("consensus_rankings")
    ok_rank = isinstance(cr, list) and len(cr) == 1 and cr[0] == ("Ranking", exp)
    att = kw.get("att") or {}
    exp_scores = {elems[i]: prof[i] for i in range(n)}
    exp_vict = {elems[i]: results_np[i] for i in range(n)}
    ok_feat = att.get("ConsensusFeature.COPELAND_SCORES") == exp_scores and \
        att.get("ConsensusFeature.COPELAND_VICTORIES") == exp_vict
    ok_ctx = kw.get("dataset") == Sym("DATASET") and kw.get("scoring_scheme") == Sym("SCHEME")
    detail = ""
    if not ok_rank:
        detail = f"ranking {cr!r}, expected one ranking {exp!r}"
    elif not ok_feat:
        detail = f"feature dictionaries {att!r} differ from the counters"
    elif not ok_ctx:
        detail = f"Consensus built with dataset={kw.get('dataset')!r} scheme={kw.get('scoring_scheme')!r}"
    res.check(ok_rank and ok_feat and ok_ctx, "O3", key, comp.loc(),
              ok_detail=f"ranking {exp!r}; features keyed by the same id map", bad_detail=detail)

"""
D16 (C05): the no-tie optimisation of the CPLEX models compares `before + after - 2 * tied` with an absolute 0.001.
With a valid scheme expressed in small units (unifying scheme x 1e-4) the test passes for every pair although tying is
strictly cheaper, ties are forbidden in the model and the "exact" algorithm returns a non-optimal consensus.
CPLEX is not installed: the run uses a generic 0/1 ILP stand-in for the `cplex` module (PuLP/CBC behind the subset of
the CPLEX API the library uses; written by an independent sub-agent, see seeded/C05-w2seed2).
Run:  cd /repo && /venv/bin/python /verif/findings/D16_repro.py      (exit 1 = defect present)
"""
import importlib.util, itertools, os, sys
spec = importlib.util.spec_from_file_location("cplex", os.path.join(os.path.dirname(__file__), "cplex_standin.py"))
mod = importlib.util.module_from_spec(spec); sys.modules["cplex"] = mod; spec.loader.exec_module(mod)
from corankco.dataset import Dataset
from corankco.scoringscheme import ScoringScheme
from corankco.kemeny_score_computation import KemenyComputingFactory
from corankco.ranking import Ranking
from corankco.algorithms.exact.exactalgorithmcplex import ExactAlgorithmCplex
from corankco.algorithms.exact.exactalgorithmcplexforpaperoptim1 import ExactAlgorithmCplexForPaperOptim1

raws = [[{3}, {1}], [{1}, {2, 5}, {4}]]
ds = Dataset.from_raw_list(raws)
u = 1e-4
sch = ScoringScheme([[0., u, u, 0., u, u], [u, u, 0., u, u, 0.]])
k = KemenyComputingFactory(sch)
elems = sorted({e for r in raws for b in r for e in b})
best = None
for nb in range(1, len(elems) + 1):
    for assign in itertools.product(range(nb), repeat=len(elems)):
        if len(set(assign)) == nb:
            r = Ranking([{e for e, a in zip(elems, assign) if a == i} for i in range(nb)])
            s = k.get_kemeny_score(r, ds)
            if best is None or s < best[0] - 1e-12:
                best = (s, r)
print("optimum by enumeration:", best[0], best[1])
bad = 0
for name, alg in (("ExactAlgorithmCplexForPaperOptim1", ExactAlgorithmCplexForPaperOptim1()),
                  ("ExactAlgorithmCplex(optimize=True)", ExactAlgorithmCplex(optimize=True)),
                  ("ExactAlgorithmCplex(optimize=False)", ExactAlgorithmCplex(optimize=False))):
    c = alg.compute_consensus_rankings(ds, sch, True)
    s = k.get_kemeny_score(c.consensus_rankings[0], ds)
    print(name, c.consensus_rankings[0], s)
    if s > best[0] + 1e-9:
        bad += 1
sys.exit(1 if bad else 0)

"""
Minimal stand-in for the part of the IBM `cplex` Python API that corankco uses.
It is a generic 0/1 ILP solver built on PuLP/CBC: it knows nothing about rank aggregation.
Supported: binary variables with an objective coefficient, linear constraints (senses E / L / G), minimisation,
solve() -> one optimal solution, populate_solution_pool() -> all the optimal solutions (enumerated with no-good cuts).

PuLP itself probes `import cplex` when it is imported (pulp.apis.cplex_api), so this module must not import pulp at
import time (circular import) and must expose the few names PuLP looks at (callbacks.Callback, infinity).
"""

_TOL = 1e-6
infinity = 1e20


class callbacks:  # noqa: N801  (only looked at by PuLP's optional CPLEX_PY wrapper, which is never used here)
    class Callback:
        pass


class _Setter:
    def __init__(self):
        self.value = None

    def set(self, value):
        self.value = value

    def get(self):
        return self.value


class _Namespace:
    """Accepts any attribute chain, each leaf being a settable parameter."""
    def __init__(self):
        self.__dict__["_children"] = {}

    def __getattr__(self, item):
        children = self.__dict__["_children"]
        if item not in children:
            children[item] = _Param()
        return children[item]


class _Param(_Namespace, _Setter):
    def __init__(self):
        _Namespace.__init__(self)
        self.__dict__["value"] = None

    def set(self, value):
        self.__dict__["value"] = value

    def get(self):
        return self.__dict__["value"]


class _Sense:
    minimize = 1
    maximize = -1


class _Objective:
    sense = _Sense

    def __init__(self):
        self._sense = _Sense.minimize

    def set_sense(self, sense):
        self._sense = sense

    def get_sense(self):
        return self._sense


class _Variables:
    def __init__(self):
        self.names = []
        self.obj = []
        self.lb = []
        self.ub = []

    def add(self, obj=None, lb=None, ub=None, types="", names=None):
        nb = len(names)
        assert len(obj) == nb and len(lb) == nb and len(ub) == nb and len(types) == nb, "inconsistent lengths"
        assert all(t == "B" for t in types), "only binary variables are supported by the stand-in"
        assert len(set(names)) == nb and not set(names) & set(self.names), "duplicate variable names"
        self.names.extend(names)
        self.obj.extend(float(x) for x in obj)
        self.lb.extend(float(x) for x in lb)
        self.ub.extend(float(x) for x in ub)

    def get_num(self):
        return len(self.names)

    def get_names(self):
        return list(self.names)


class _LinearConstraints:
    def __init__(self):
        self.rows = []
        self.senses = []
        self.rhs = []
        self.names = []

    def add(self, lin_expr=None, senses="", rhs=None, names=None):
        nb = len(lin_expr)
        if not (len(senses) == nb and len(rhs) == nb and (names is None or len(names) == nb)):
            raise CplexError("CPLEX Error 1200: inconsistent lengths of the arguments of linear_constraints.add "
                             f"({nb} rows, {len(senses)} senses, {len(rhs)} rhs)")
        for row in lin_expr:
            self.rows.append((list(row[0]), [float(c) for c in row[1]]))
        self.senses.extend(senses)
        self.rhs.extend(float(x) for x in rhs)
        if names is not None:
            self.names.extend(names)

    def get_num(self):
        return len(self.rows)


class CplexError(Exception):
    pass


class _Pool:
    def __init__(self, owner):
        self._owner = owner

    def get_num(self):
        return len(self._owner._pool)

    def get_values(self, i):
        return list(self._owner._pool[i])

    def get_objective_value(self, i):
        return self._owner._pool_obj[i]


class _Solution:
    def __init__(self, owner):
        self._owner = owner
        self.pool = _Pool(owner)

    def get_values(self):
        if self._owner._values is None:
            raise CplexError("no solution")
        return list(self._owner._values)

    def get_objective_value(self):
        return self._owner._objective_value


class Cplex:
    def __init__(self):
        self.parameters = _Namespace()
        self.objective = _Objective()
        self.variables = _Variables()
        self.linear_constraints = _LinearConstraints()
        self.solution = _Solution(self)
        self._values = None
        self._objective_value = None
        self._pool = []
        self._pool_obj = []

    def set_results_stream(self, _):
        pass

    def set_log_stream(self, _):
        pass

    def set_warning_stream(self, _):
        pass

    def set_error_stream(self, _):
        pass

    def _build(self):
        import pulp
        sign = 1.0 if self.objective.get_sense() == _Sense.minimize else -1.0
        prob = pulp.LpProblem("standin", pulp.LpMinimize)
        lp_vars = [pulp.LpVariable(f"v{i}", lowBound=self.variables.lb[i], upBound=self.variables.ub[i], cat="Binary")
                   for i in range(len(self.variables.names))]
        index = {name: i for i, name in enumerate(self.variables.names)}
        prob += pulp.lpSum(sign * self.variables.obj[i] * lp_vars[i] for i in range(len(lp_vars)))
        for (names, coefs), sense, rhs in zip(self.linear_constraints.rows, self.linear_constraints.senses,
                                              self.linear_constraints.rhs):
            expr = pulp.lpSum(c * lp_vars[index[n]] for n, c in zip(names, coefs))
            if sense == "E":
                prob += expr == rhs
            elif sense == "L":
                prob += expr <= rhs
            elif sense == "G":
                prob += expr >= rhs
            else:
                raise CplexError(f"unknown sense {sense}")
        return prob, lp_vars, sign

    @staticmethod
    def _solve(prob):
        import pulp
        status = prob.solve(pulp.PULP_CBC_CMD(msg=False))
        return pulp.LpStatus[status] == "Optimal"

    def _objective_of(self, values):
        return sum(c * v for c, v in zip(self.variables.obj, values))

    def solve(self):
        prob, lp_vars, _ = self._build()
        if not self._solve(prob):
            raise CplexError("CPLEX Error 1217: No solution exists.")
        self._values = [float(round(v.value())) if v.value() is not None else 0.0 for v in lp_vars]
        self._objective_value = self._objective_of(self._values)

    def populate_solution_pool(self):
        import pulp
        prob, lp_vars, sign = self._build()
        self._pool, self._pool_obj = [], []
        best = None
        while True:
            if not self._solve(prob):
                break
            values = [float(round(v.value())) if v.value() is not None else 0.0 for v in lp_vars]
            obj = self._objective_of(values)
            if best is None:
                best = obj
                self._values, self._objective_value = values, obj
            if sign * (obj - best) > _TOL * max(1.0, abs(best)):
                break
            self._pool.append(values)
            self._pool_obj.append(obj)
            # no-good cut: at least one variable must change
            prob += pulp.lpSum((1 - v) if val > 0.5 else v for v, val in zip(lp_vars, values)) >= 1
            if len(self._pool) > 20000:
                raise CplexError("stand-in: too many optimal solutions")
        if best is None:
            raise CplexError("CPLEX Error 1217: No solution exists.")
